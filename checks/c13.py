CONFIG = {
    "manifest": {
        "text": "Theorems (Qed, closed under the global context) over EVERY sequence, of any length: simple8b (three encoder variants) round-trips all values < 2^60; "
                "timestamp, integer and unsigned codecs round-trip every 64-bit sequence whichever scheme (RLE / simple8b with power-of-ten divisor / raw) is picked, for both encoders "
                "(iterator and *ArrayEncodeAll) and both decoders, which therefore agree; boolean, string (snappy abstract) and float Gorilla-XOR (all non-NaN patterns; NaN refused) codecs and the block envelope round-trip; "
                "every WAL write/delete/delete-range entry in the API's domain round-trips, UnmarshalBinary never panics on any bytes, and a segment cut at ANY byte offset replays exactly the complete entries "
                "before the cut, without crash, reporting the offset of the last complete entry. The models are byte-exact: every run re-reads the selector tables/tags from the source and "
                "diffs model bytes and decodes against the real encoders/decoders and the real WALSegmentReader on designed + generated inputs.",
        "note": "Trusts Coq kernel, genconsts, the harness; snappy (premise decode(encode b)=Some b), go-bitstream/BitReader (modelled as an MSB-first bit list), math.Log10/Pow10 exact on 10^0..10^12 "
                "(every exponent is exercised each run). DeleteWALEntry (legacy, no longer written) cannot carry keys containing '\\n' (proved, outside the domain). Malformed TSM blocks are outside the statement.",
        "technique": "Coq proof (induction over value lists / entry lists / byte offsets) on byte-exact Gallina models + differential correspondence against the real tsm1 codecs, simple8b packages and WALSegmentReader",
    },
    "harness": "h_c13",
    "level": "proof",
    "extra_proof_files": ["S8bProofs", "IntProofs", "TimeProofs", "BoolProofs", "StrProofs", "FloatProofs", "WALProofs"],
    "n": {"quick": 600, "thorough": 6000},
    "shard": 120,
    "search_rounds": 2,
    "search_boost": 2,
    "rule": "designed cases first (every divisor exponent 10^0..10^12 for RLE and packed; runs of 59/60/61/119/120/121/239/240/241/359..481 ones alone, followed and preceded by other values, "
            "as simple8b input, as timestamp deltas and as integer zig-zag deltas; values 0,1,2^60-2,2^60-1,2^60,2^60+1,2^63,2^64-1 as value, delta, RLE step; all bool lengths 0..17; "
            "float specials pairwise (+-0, subnormals, +-Max, +-Inf, NaN); empty/odd WAL entries; malformed WAL payloads per entry type) then seeded generation: sequences built from "
            "selector-targeted segments (each bit width, boundary values 2^b-1 and 2^b), constant/zero/negative/huge deltas, deltas divisible by 10^k with one exception, one delta >= 2^60, "
            "random 64-bit values, lengths 0..1200 incl. 119..122/239..242/480/481/999..1001; floats by 8 families; strings incl. empty and long; blocks through Values.Encode/DecodeBlock/Decode*ArrayBlock; "
            "WAL entries of all types, mutated payloads through the real reader, logs cut at EVERY offset (short) or at frame boundaries +-3 (long). "
            "every encoder additionally with dirty destination buffers and Reset+reuse (see trusted base); WAL logs additionally through the real tsm1.WAL with same-layout value flips. distinct = distinct input (hash of the sequence / entry / segment); non-trivial = non-empty sequence (floats: >= 2 values), every WAL case",
    "trusted_base": [
        "C13: snappy (golang/snappy) is abstract: theorems have the premise decode(encode b) = Some b; the correspondence compares the bytes BEFORE compression (the harness decompresses the real output) and feeds the model reader the observed (payload, compressed) pairs as the snappy oracle",
        "C13: go-bitstream BitWriter, tsm1.BitReader and the cached bit reader of FloatArrayDecodeAll are modelled as an MSB-first bit list (validated byte-exactly on every float case); truncated float streams are outside the model",
        "C13: math.Log10(float64(10^k)) = k and math.Pow10(k) = 10^k for k <= 12 (exercised for every k on each run)",
        "C13: the unsafe slice reinterpretations (int64<->uint64) are modelled as identity on 64-bit patterns",
        "C13: the model is a pure function of the values (no buffers). The correspondence therefore also runs EVERY encoder that takes a destination or can be reused - *ArrayEncodeAll(src, b), Values.Encode(buf), "
        "Write/Delete/DeleteRangeWALEntry.Encode(dst), and the iterator encoders after Reset - with dirty buffers (0xFF / 0x01 / pattern fill; capacity smaller, equal, larger; zero and non-zero length) and after encoding an unrelated polluting sequence; "
        "the bytes must be identical to the fresh encode (which is compared with the model in Coq); the first differing variant replaces the recorded bytes so the model comparison and the decode-based spec see it. "
        "Only canonicalisation: BooleanArrayEncodeAll leaves the unused low bits of the last byte as found in a dirty destination (decoders are count-limited); exactly those padding bits are masked, decodes are taken from the dirty bytes. "
        "StringArrayEncodeAll with NO strings and a dirty buffer is not exercised (EncodeStringArrayBlock returns before calling it; its 2-byte shortcut leaves b[1] unwritten)",
        "C13: WAL replay is observed the way CacheLoader.Load uses it: all entries decoded from a (truncated) segment are RETAINED and compared only after every read of the case is finished (reader and buffer pools reused many times in between), "
        "two reads out of three go through ONE WALSegmentReader that is Reset between segments (Count() must restart from 0), and the real CacheLoader.Load is run over 2-3 segment files (some torn) checking that each file is truncated to exactly its valid prefix",
        "C13: very long strings (2^14-1, 2^14, 2^21-1, 2^21, 2^21+1 bytes alone and inside a block, and a block of three values >= 2 MiB) are round-tripped through both real encoders and both real decoders under recover and judged on the implementation's observation ONLY "
        "(kind 'big': lengths, a content hash and the outcome class reach Coq; the model is NOT evaluated at these sizes). The theorem string_roundtrip covers every length; the byte-exact correspondence covers strings by sampling up to 2000 bytes (65536 in the thorough tier)",
        "C13: WAL write path end to end: logs are also written through the real tsm1.WAL (WriteMulti/Delete/DeleteRange, pooled and recycled encode buffers, real segment file) with same-layout entries whose values flip between all-high and all-low, "
        "then the file is parsed frame by frame, compared with the model's serialisation and replayed by the real WALSegmentReader at every frame boundary +-4",
        "C13: simple8b selector tables, canPack cascade order, pkg numBits, MaxValue, encoding tags, WAL entry type bytes and the start divisor 1e12 are regenerated from the source (vendored jwilder module located through go.mod) on every run",
        "C13: WriteWALEntry holds a Go map: byte-exactness of MarshalBinary is checked modulo the permutation of keys (the model parses the real bytes, compares as a map, and re-serialises to exactly the real bytes)",
    ],
    "modelled": "tsm1 timestamp/integer/unsigned/boolean/string/float encoders and decoders (iterator and batch), jwilder simple8b Encode/EncodeAll/Encoder/Decoder, pkg simple8b EncodeAll/CountBytes/DecodeBytesBigEndian, packBlock/unpackBlock, "
                "WAL entry Encode/UnmarshalBinary, WALSegmentWriter.Write, WALSegmentReader.Next/Read/Count with the CacheLoader replay loop are modelled (theories/C13/*.v). "
                "Not modelled: snappy, file I/O and fsync of the WAL (C01), decoder behaviour on corrupt TSM blocks (e.g. unpackBlock int overflow on a hostile varint, stale state of pooled TimeDecoder on an empty timestamp section), "
                "FloatArrayEncodeAll's running-sum NaN test beyond 'NaN present or both infinities present' (the parser admits neither NaN nor Inf).",
    "assumptions": ["snappy.Decode(snappy.Encode(b)) = b", "slice lengths fit in uint64 (N.of_nat (length l) < 2^64)",
                    "io.ReadFull semantics: 0 bytes -> EOF, fewer than requested -> ErrUnexpectedEOF"],
}


def classify(case):
    return None
