CONFIG = {
    "manifest": {
        "text": "Theorems (Qed, closed under the global context) over every cluster size, replication factor, ownership layout with >= 1 owner per shard, "
                "coordinating node, random oracle and node behaviour (function node x shard set x call index -> serve | refuse | error reply | cut): "
                "mapShards yields a partition of the query's shards onto owners with local shards local, and for statements with several sources (same db/rp repeated, subqueries, several retention policies) "
                "every source is mapped exactly once (its entries are the image of one run of the single-source mapper); the retry loop of a remote shard group ends within "
                "#owner nodes + 1 rounds, each failed round growing the dirty set; its result is a partition of the group's shards read from answering "
                "owners or an error, and an error whenever a shard has no answering owner; an error reply never yields a part; whole operations "
                "(CreateIterator / FieldDimensions / IteratorCost sequences on one mapping) return the single-node answer or an error. The model is diffed on every run "
                "against the real ClusterShardMapper + remoteShardGroup + MetaExecutor + coordinator.Service + tsdb.Store on an in-process 2-3 node cluster with injected faults. "
                "Partial: a stream closed at a frame boundary (or right after a frame's length prefix) is accepted as complete (open finding c05-stream-cut-at-frame-boundary, excluded from the link theorem by hypothesis); "
                "MapType over the fan-out: for every list of answers the reported type is one of them and none has precedence over it (map_type_max); driven end to end (kind mtype: a field whose type differs between shards, "
                "coordinator knowing / not knowing it locally) against the single store; a failed remote MapType still degrades to Unknown (no error channel). "
                "Storage-read streams (MetaExecutor.ReadFilter / ReadGroup -> storeStreamReceiver.Recv -> reads.ResultSetStreamReader / GroupResultSetStreamReader): for every sequence of messages (any payload bytes "
                "below MaxMessageSize) and every byte offset at which the connection is closed, Recv hands on exactly the messages lying completely before the cut, intact and in order, "
                "reports an error iff the cut lies strictly inside a message (type byte delivered, size or value incomplete; repaired by a fix: commit - before it every cut was read as the end of the stream), "
                "delivers everything when nothing is cut, and a call returns the single-store answer or an error for every cut not exactly at a message boundary "
                "(boundary cuts: same open limitation, end of stream = EOF); diffed against the real receiver on byte streams written by the real sender, against the real result-set readers, and end to end "
                "against MetaExecutor.ReadFilter/ReadGroup -> TCP proxy cutting the byte stream -> coordinator.Service -> storage.Store -> tsdb.Store. "
                "SHOW fan-out (ClusterTSDBStore.MeasurementNames / TagKeys / TagValues over MetaExecutor.ExecuteQuery): for every layout and node behaviour (serve | error reply | down) the listing is the sorted union over the "
                "answering nodes, never an error; it equals the single-node listing whenever every shard has an answering owner; Partial: when some shard has no answering owner the listing is silently incomplete "
                "(open finding c05-show-fanout-drops-node-errors, show_silently_incomplete_refuted); diffed against the real ClusterTSDBStore on the in-process cluster with nodes down / replying with errors. "
                "Typed merge of the fan-out (ClusterShardMapping.CreateIterator -> Iterators.Merge, first input decides the element type, inputs of other types are closed and dropped): for every field type, every list of sources "
                "(local or remote, any number holding no such measurement and answering with type Unknown) and every arrival order (any permutation) the merged stream holds every row of every source once and has the field's type "
                "(typed_merge_complete; repaired by a fix: commit - before it an Unknown reply became an empty FLOAT reader and, arriving first, made the merge drop every integer/string/boolean input: typed_merge_complete_refuted, "
                "typed_merge_pinned_partial); diffed end to end on the in-process cluster (integer field, nodes without the measurement, replies released in every order). "
                "Merged storage result sets (reads.NewMergedResultSet behind ClusterStoreMapping.ReadFilter, and the GroupNone/GroupBy merges using the same heap): for every list of inputs, each failing at any point including before "
                "its first series, and every order, draining ends with an error iff an input failed and otherwise delivers every series once (rs_merge_complete_or_error; repaired by a fix: commit - before it resultSetHeap.init "
                "closed an input that failed before its first series without reading Err(): rs_merge_error_surfaces_refuted); diffed against the real NewMergedResultSet over real ResultSetStreamReaders.",
        "note": "Trusts Coq kernel, the harness (fault-injecting connection wrapper, canonicalisers), loopback TCP; opt.NodeID > 0 (explicit single-node read) excluded; MapType has no error channel.",
        "technique": "Coq proof (induction over shard lists / retry rounds with a decreasing clean-owner measure) on a Gallina model + differential correspondence against an in-process mini-cluster",
    },
    "harness": "h_c05",
    "level": "proof",
    "extra_proof_files": ["ProofsA", "ProofsB", "ProofsC", "ProofsStream", "ProofsShow", "ProofsMerge"],
    "coq_deps": ["C15"],
    "n": {"quick": 900, "thorough": 12000},
    "shard": 150,
    "harness_timeout": {"quick": 420, "thorough": 3000},
    "rule": "designed cases (every MetaExecutor read call x {serve, error reply, refused dial, cut reply}; the Coq witnesses on a 3-node cluster x down sets x fault seeds; "
            "a 4-node family with a retry round in which one node fails and one succeeds before a successful round; multi-source statements x coordinators owning none/some/all shards) "
            "then seeded generation: worlds (2-4 nodes, 5 in thorough; 1-3 shard groups x 1-3 shards; ring placement with a replication factor or arbitrary owner subsets/orders; 0-3 points per shard) "
            "every third world is a metadata history (odd-sized groups, truncated groups holding points after the truncation time + successor groups, deleted groups with data still on the nodes, gaps) queried with bounds at group start/end/truncation time +-1; "
            "the expected rows come from the data (single store holding the union of the live data, all shards, time filter only), not from the metadata lookup; "
            "x per world 40 queries (statement = 1 source (45%) or 2-3 sources over measurements m/m1/m2 of one or two retention policies, 20% wrapped in a subquery; coordinator uniformly, or one owning no shard (30%), or one needing remote shards, time range = subset of groups possibly trimmed, each other node down with p=0.2, per-request fault function "
            "hash(seed,node,shard set,call index) with p in {0,25,50,80}% choosing error reply / cut inside the response / cut after j points + b bytes, 1-3 operations from "
            "CreateIterator, FieldDimensions, IteratorCost on the same mapping); distinct = distinct input description; non-trivial = at least one remote shard group. "
            "Stream cases: kind recv (real storeStreamReceiver.Recv on the first k bytes of 1-5 messages written by the real storeStreamSender - responses, empty responses, trailers, unknown message types - optionally followed by a "
            "negative / oversized size or a partial header; designed: every offset of a 3-message stream) compared message by message at byte level; kind rsraw (real ResultSetStreamReader / GroupResultSetStreamReader over the receiver; "
            "well- and ill-formed frame sequences: points before a series, group frames in a ReadFilter stream, runs of empty responses; designed: every offset of a ReadFilter and a ReadGroup stream); kind sread "
            "(MetaExecutor.ReadFilter / ReadGroup against a node of the in-process cluster through a proxy closing the reply after k bytes: k = 0, inside type byte / size / value of the response message and of each stream message, "
            "exactly at each message boundary, full length; worlds with float data (one message) and 9000/30000-byte strings (several 64 KiB messages); reference = the same request on the single store, no network); "
            "offsets of generated cases biased to boundaries, after the type byte, inside the size, after the size, last byte missing. "
            "SHOW cases: kind show (ClusterTSDBStore.MeasurementNames / TagKeys / TagValues on 2-4 node clusters, ring or arbitrary ownership, tagged series per shard, each other node down 25% / error reply 20%; "
            "designed: the Coq witness layout and the same data with a covering replica x coordinator x {down, error reply} sets); reference = the listing of the single store holding every shard. "
            "Typed-merge cases: kind tmerge (SELECT of an INTEGER field of measurement mi through the real ClusterShardMapper / MetaExecutor / coordinator.Service on 3-4 node clusters, one owner per shard, shards with and without the measurement, "
            "the remote replies released 200 ms apart in a chosen order; designed: the Coq witness (one node without the measurement, two with integer rows, coordinator holding nothing) in all 6 arrival orders, coordinator holding a shard with / without the measurement, "
            "nobody holding it; generated: 2-4 shards, 55% holding 1-3 rows, random owners and order); reference = the same iterator on the single store. "
            "kind mtype (ClusterShardMapping.MapType of field w of measurement mt whose type - float / integer / string / boolean / absent - differs per shard, 2-4 nodes, every coordinator; designed: local integer + remote float, three types, nobody); "
            "kind rsmerge (real reads.NewMergedResultSet over 1-4 real ResultSetStreamReaders fed by in-memory streams: 0-6 series spread over the inputs, each input failing with p=25% after its series; designed: the witness in both orders, failure after a series, a lone failing input, two inputs without series)",
    "trusted_base": [
        "C05: node behaviour enters the model as the table of outcomes the fault injector applied to the requests that reached each node (plus the set of refusing nodes); the injector is part of the harness",
        "C05: the random oracle of mapShards is read off the observed mapping (index of the chosen owner); the model must reproduce the whole mapping from it",
        "C05: row content is modelled as a set of row ids per shard (unique timestamps, one series); merge order, field typing and aggregation are the real code's and only compared through the single-store reference",
        "C05: opt.NodeID > 0 and MapType under faults (no error channel) are outside the model (MapType of answering nodes: MergeModel.map_type); all measurements hold identical data, so sources are distinguished by (db, rp) key only",
        "C05 streams: protobuf / JSON decoding of message payloads is not modelled (payloads are handed on as bytes; the harness re-marshals what Recv returned and only feeds payloads written by the real sender); "
        "the sender side (reads.ResponseWriter, storeStreamSender) is observed, not modelled: the message structure of the node's reply is read off the bytes the proxy recorded; "
        "'use of closed network connection' (local close) -> io.EOF is not modelled; partition-key order check of the group reader not modelled (inputs keep group ids ascending); the cutting proxy is part of the harness",
        "C05 SHOW: a listing is a set of abstract items (measurement names, (measurement, key), (measurement, key, value)); what a node answers is modelled as the items of the shards it owns "
        "(tsdb.Store.TagKeys over the shards it holds) and checked against the real reference listing; errors of the coordinator's own store are in the model but not injected by the harness",
        "C05 typed merge: the arrival order of the replies is imposed by the harness (each node's store wrapper sleeps (p+1) x 200 ms before serving; the local mapping needs no network and is taken to arrive first) and is not observed at the client; "
        "a source's reply type is derived from the data (integer iff one of its shards holds the measurement); the order inside the merged stream, mixed field types across shards (an upstream InfluxDB matter: wf_sources assumes one type per field) "
        "and the unordered NewMergeIterator / call-iterator path are not modelled (same coerce rule)",
        "C05 merged result sets: inputs are real ResultSetStreamReaders over in-memory StreamReaders (not TCP); a merged stream is the sorted list of series ids, the caller is assumed to drain it and then read Err(); "
        "the GroupNone / GroupBy group merges share resultSetHeap.init and the repair but are not driven by the harness; groupByMergedGroupResultSet.next() used to overwrite an earlier input's error with a later input's nil error (repaired by a fix: commit after a probe; neither modelled nor driven by the harness)",
    ],
    "modelled": "coordinator/shard_mapper.go mapShards (NodeID = 0 branch), shuffleShards, the retry loops of remoteShardGroup.{CreateIterator,FieldDimensions,IteratorCost} (same shape as ReadFilter/ReadGroup), "
                "ClusterShardMapping fan-out/merge, MetaExecutor reply handling (client_response), ReaderIterator end-of-stream rule are modelled (theories/C05/Model.v); "
                "coordinator/store_stream.go storeStreamReceiver.Recv over ReadType/ReadLV (tied to C15's read_tlv by recv_step_is_read_tlv), MetaExecutor.ReadFilter/ReadGroup response + stream, "
                "storage/reads frameReader.peekFrame (ErrStreamNoData rule) and the ResultSetStreamReader / GroupResultSetStreamReader state machines (theories/C05/StreamModel.v); "
                "MetaExecutor.ExecuteQuery and ClusterTSDBStore.{MeasurementNames,TagKeys,TagValues} merge (theories/C05/ShowModel.v); "
                "MetaExecutor.CreateIterator's handling of the reply type + query.NewReaderIterator default branch + Iterators.filterNonNil/dataType/coerce/new<T>Iterators (type of the first input decides) as used by "
                "ClusterShardMapping.CreateIterator, and storage/reads resultSetHeap.init + mergedResultSet error rule (theories/C05/MergeModel.v); "
                "tsdb iterators, protobuf bodies, connection pool, TCP are exercised by the harness but not modelled",
    "assumptions": ["every shard in the metadata view has at least one owner (C06 invariant)",
                    "a connection closed by the peer after it has read the whole request is seen by the client as EOF (FIN), as on loopback"],
}

KNOWN_CUT = "c05-stream-cut-at-frame-boundary"
KNOWN_SHOW = "c05-show-fanout-drops-node-errors"


def _boundary_cut(hdr, lens, k):
    """k (offset in the node's reply) lies exactly before a stream message (the end of the
    response message or of a stream message) and at least one message is missing"""
    off = hdr
    for l in lens:
        if k == off:
            return True
        off += 9 + l
    return False


def _classify_stream(case):
    """storage-read stream closed exactly at a message boundary and read as complete: kinds
    rsraw / sread; no call error, no stream error, nothing damaged; the delivered items are a
    strict prefix-like part of the reference: every delivered item equals the reference item at
    its position except that the last one may hold a prefix of its timestamps."""
    d, obs = case["desc"], case["obs"]
    if obs.get("call_error") or obs.get("error") or obs.get("corrupt"):
        return None
    k = d["k"]
    if k < 0 or not _boundary_cut(obs["hdr"], obs["lens"], k):
        return None
    got, ref = obs.get("items") or [], obs.get("reference") or []
    if len(got) > len(ref) or got == ref:
        return None
    for i, g in enumerate(got):
        r = ref[i]
        if g["kind"] != r["kind"] or g["id"] != r["id"]:
            return None
        gt, rt = g.get("ts") or [], r.get("ts") or []
        if i < len(got) - 1:
            if gt != rt:
                return None
        elif gt != rt[:len(gt)]:
            return None
    return KNOWN_CUT


def _classify_recv(case):
    """receiver level: the stream is cut exactly between two messages (or before the first), no
    error is reported and exactly the messages before the cut were received"""
    d, obs = case["desc"], case["obs"]
    if obs.get("error"):
        return None
    lens = obs["lens"]
    if not _boundary_cut(0, lens, d["k"]):
        return None
    n = 0
    off = 0
    for l in lens:
        if off + 9 + l <= d["k"]:
            n += 1
        off += 9 + l
    if len(obs.get("received") or []) != n or n >= len(lens):
        return None
    return KNOWN_CUT


def _classify_show(case):
    """SHOW fan-out: no error returned, some data node is down or replies with an error, the
    listing is a duplicate-free strict subset of the reference and every missing item belongs to
    a shard none of whose owners answered"""
    d, obs = case["desc"], case["obs"]
    if obs.get("err"):
        return None
    bad = set(d.get("down") or []) | set(d.get("errs") or [])
    if not bad:
        return None
    uncovered = [sp for sp in d["world"]["shards"] if all(o in bad for o in sp["owners"])]
    if not uncovered:
        return None
    droppable = set()
    for sp in uncovered:
        droppable.update(obs["items_by_shard"].get(str(sp["id"])) or [])
    got, ref = obs.get("listing") or [], obs.get("reference") or []
    if len(set(got)) != len(got) or not set(got) < set(ref):
        return None
    if not (set(ref) - set(got)) <= droppable:
        return None
    return KNOWN_SHOW


def classify(case):
    """Signature of the open finding, for exactly this shape: a query case whose fault plan
    allows clean cuts; some CreateIterator request that reached a node had its point stream
    closed at a frame boundary (b = 0) or right after a frame's length prefix (b = 4), which
    the client reads as a plain EOF; the observed mapping is a partition of the metadata
    view; and every non-error result that differs from the reference is a CreateIterator
    result that is a duplicate-free strict subset of the reference whose missing rows all
    belong to shards of the cleanly cut requests."""
    try:
        if case.get("kind") in ("rsraw", "sread"):
            return _classify_stream(case)
        if case.get("kind") == "recv":
            return _classify_recv(case)
        if case.get("kind") == "show":
            return _classify_show(case)
        if case.get("kind") != "query":
            return None
        d, obs = case["desc"], case["obs"]
        if not d["fault"].get("clean_ok"):
            return None
        def is_clean(c):
            return c["out"].startswith("(CutPts") and c["out"].rstrip(")").split()[-1] in ("0", "4")
        # rows that a cut at a frame boundary may have dropped: rows of the shards of those requests
        droppable = set()
        for c in obs["served"]:
            if is_clean(c) and c.get("req") == "ci":
                for sid in c["ids"]:
                    droppable.update(obs["rows"].get(str(sid)) or [])
        if not droppable:
            return None
        # the mapping itself must be a partition of the metadata view: a bad mapping is never this finding
        ids = sorted(i for sm in obs["mapping"] for i in (sm["local"] + [x for g in sm["remote"] for x in g["ids"]]))
        if ids != sorted(obs["view"]) or len(set(ids)) != len(ids):
            return None
        short = False
        for op, res, ref in zip(d["ops"], obs["results"], obs["reference"]):
            if res.get("err"):
                continue
            got, want = res.get("vals") or [], ref.get("vals") or []
            if got == want:
                continue
            if op != "ci":
                return None
            # strictly short, no duplicates, and only rows of cleanly cut requests are missing
            if len(set(got)) != len(got) or not set(got) < set(want):
                return None
            if not (set(want) - set(got)) <= droppable:
                return None
            short = True
        return KNOWN_CUT if short else None
    except Exception:
        return None
