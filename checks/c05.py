CONFIG = {
    "manifest": {
        "text": "Theorems (Qed, closed under the global context) over every cluster size, replication factor, ownership layout with >= 1 owner per shard, "
                "coordinating node, random oracle and node behaviour (function node x shard set x call index -> serve | refuse | error reply | cut): "
                "mapShards yields a partition of the query's shards onto owners with local shards local, and for statements with several sources (same db/rp repeated, subqueries, several retention policies) "
                "every source is mapped exactly once (its entries are the image of one run of the single-source mapper); the retry loop of a remote shard group ends within "
                "#owner nodes + 1 rounds, each failed round growing the dirty set; its result is a partition of the group's shards read from answering "
                "owners or an error, and an error whenever a shard has no answering owner; an error reply never yields a part; whole operations "
                "(CreateIterator / FieldDimensions / IteratorCost sequences on one mapping) return the single-node answer or an error. The model is diffed on every run "
                "against the real ClusterShardMapper + remoteShardGroup + MetaExecutor + coordinator.Service + tsdb.Store on an in-process 2-3 node cluster with injected faults. "
                "Partial: a stream closed at a frame boundary (or right after a frame's length prefix) is accepted as complete (open finding c05-stream-cut-at-frame-boundary, excluded from the link theorem by hypothesis); "
                "MapType and ReadFilter/ReadGroup streams are not driven end to end (only their reply handling).",
        "note": "Trusts Coq kernel, the harness (fault-injecting connection wrapper, canonicalisers), loopback TCP; opt.NodeID > 0 (explicit single-node read) excluded; MapType has no error channel.",
        "technique": "Coq proof (induction over shard lists / retry rounds with a decreasing clean-owner measure) on a Gallina model + differential correspondence against an in-process mini-cluster",
    },
    "harness": "h_c05",
    "level": "proof",
    "extra_proof_files": ["ProofsA", "ProofsB", "ProofsC"],
    "n": {"quick": 900, "thorough": 12000},
    "shard": 150,
    "harness_timeout": {"quick": 420, "thorough": 3000},
    "rule": "designed cases (every MetaExecutor read call x {serve, error reply, refused dial, cut reply}; the Coq witnesses on a 3-node cluster x down sets x fault seeds; "
            "a 4-node family with a retry round in which one node fails and one succeeds before a successful round; multi-source statements x coordinators owning none/some/all shards) "
            "then seeded generation: worlds (2-4 nodes, 5 in thorough; 1-3 shard groups x 1-3 shards; ring placement with a replication factor or arbitrary owner subsets/orders; 0-3 points per shard) "
            "every third world is a metadata history (odd-sized groups, truncated groups holding points after the truncation time + successor groups, deleted groups with data still on the nodes, gaps) queried with bounds at group start/end/truncation time +-1; "
            "the expected rows come from the data (single store holding the union of the live data, all shards, time filter only), not from the metadata lookup; "
            "x per world 40 queries (statement = 1 source (45%) or 2-3 sources over measurements m/m1/m2 of one or two retention policies, 20% wrapped in a subquery; coordinator uniformly, or one owning no shard (30%), or one needing remote shards, time range = subset of groups possibly trimmed, each other node down with p=0.2, per-request fault function "
            "hash(seed,node,shard set,call index) with p in {0,25,50,80}% choosing error reply / cut inside the response / cut after j points + b bytes, 1-3 operations from "
            "CreateIterator, FieldDimensions, IteratorCost on the same mapping); distinct = distinct input description; non-trivial = at least one remote shard group",
    "trusted_base": [
        "C05: node behaviour enters the model as the table of outcomes the fault injector applied to the requests that reached each node (plus the set of refusing nodes); the injector is part of the harness",
        "C05: the random oracle of mapShards is read off the observed mapping (index of the chosen owner); the model must reproduce the whole mapping from it",
        "C05: row content is modelled as a set of row ids per shard (unique timestamps, one series); merge order, field typing and aggregation are the real code's and only compared through the single-store reference",
        "C05: opt.NodeID > 0, MapType (no error channel), ReadFilter/ReadGroup streaming (only their reply handling) are outside the model; all measurements hold identical data, so sources are distinguished by (db, rp) key only",
    ],
    "modelled": "coordinator/shard_mapper.go mapShards (NodeID = 0 branch), shuffleShards, the retry loops of remoteShardGroup.{CreateIterator,FieldDimensions,IteratorCost} (same shape as ReadFilter/ReadGroup), "
                "ClusterShardMapping fan-out/merge, MetaExecutor reply handling (client_response), ReaderIterator end-of-stream rule are modelled (theories/C05/Model.v); "
                "tsdb iterators, protobuf bodies, connection pool, TCP are exercised by the harness but not modelled",
    "assumptions": ["every shard in the metadata view has at least one owner (C06 invariant)",
                    "a connection closed by the peer after it has read the whole request is seen by the client as EOF (FIN), as on loopback"],
}

KNOWN_CUT = "c05-stream-cut-at-frame-boundary"


def classify(case):
    """Signature of the open finding, for exactly this shape: a query case whose fault plan
    allows clean cuts; some CreateIterator request that reached a node had its point stream
    closed at a frame boundary (b = 0) or right after a frame's length prefix (b = 4), which
    the client reads as a plain EOF; the observed mapping is a partition of the metadata
    view; and every non-error result that differs from the reference is a CreateIterator
    result that is a duplicate-free strict subset of the reference whose missing rows all
    belong to shards of the cleanly cut requests."""
    try:
        if case.get("kind") != "query":
            return None
        d, obs = case["desc"], case["obs"]
        if not d["fault"].get("clean_ok"):
            return None
        def is_clean(c):
            return c["out"].startswith("(CutPts") and c["out"].rstrip(")").split()[-1] in ("0", "4")
        # rows that a cut at a frame boundary may have dropped: rows of the shards of those requests
        droppable = set()
        for c in obs["served"]:
            if is_clean(c) and c.get("req") == "ci":
                for sid in c["ids"]:
                    droppable.update(obs["rows"].get(str(sid)) or [])
        if not droppable:
            return None
        # the mapping itself must be a partition of the metadata view: a bad mapping is never this finding
        ids = sorted(i for sm in obs["mapping"] for i in (sm["local"] + [x for g in sm["remote"] for x in g["ids"]]))
        if ids != sorted(obs["view"]) or len(set(ids)) != len(ids):
            return None
        short = False
        for op, res, ref in zip(d["ops"], obs["results"], obs["reference"]):
            if res.get("err"):
                continue
            got, want = res.get("vals") or [], ref.get("vals") or []
            if got == want:
                continue
            if op != "ci":
                return None
            # strictly short, no duplicates, and only rows of cleanly cut requests are missing
            if len(set(got)) != len(got) or not set(got) < set(want):
                return None
            if not (set(want) - set(got)) <= droppable:
                return None
            short = True
        return KNOWN_CUT if short else None
    except Exception:
        return None
