CONFIG = {
    "manifest": {
        "text": "Theorems (Qed, closed under the global context) over every history of engine steps (writes, WAL sync/roll, cache snapshots "
                "incl. failed and retried ones, compactions, range deletes, crashes with any cut of the unsynced WAL tail between any two steps "
                "incl. inside recovery, any number of restarts): WAL replay yields exactly the whole frames before the cut, every acknowledged entry "
                "lies in the replayed prefix (a torn tail costs only unacknowledged writes), and after every completed recovery each point of the "
                "acknowledged history is read back with the value the last-write-wins spec gives. The unrepaired WAL.Open / WriteSnapshot are kept in "
                "the model as a configuration and refuted by checked witnesses. The model is diffed against a real tsdb.Store on crash images "
                "(directory copies after and inside operations, every truncation class of the unsynced WAL suffix, two restarts).",
        "note": "Trusts Coq kernel, the harness and its canonicaliser, the file-system model (steps durable in program order, a crash keeps a prefix "
                "of an unsynced append); TSM byte format, mmap readers, series file and TSI durability, fields.idx content are not modelled.",
        "technique": "Coq proof (invariant over arbitrary step lists of an engine step machine) + differential crash-image correspondence against the real storage engine",
    },
    "harness": "h_c01",
    "level": "proof",
    "n": {"quick": 320, "thorough": 6000},
    "shard": 60,
    "extra_proof_files": ["Link"],
    "harness_timeout": {"quick": 900, "thorough": 7200},
    "rule": "designed histories first (torn tail at every offset 0..64 of the entry + acknowledged writes + second restart; failed snapshot, write, retried "
            "snapshot with crashes after every operation and at the three snapshot hook points; snapshots/compactions/delete with a torn delete entry at every offset), "
            "then seeded histories of 4-12 operations (write 52%, snapshot 16%, failed snapshot 7%, compaction of 1-3 adjacent files 9%, range delete 12%, clean restart 4%); "
            "per history up to 14 crash images: after an operation, at verifPoint hooks inside WriteSnapshot / FileStore.replace, or with the newest WAL segment cut inside "
            "the entry of the last operation (offsets 0,1,4,5,6, all-but-one, whole, random); each image is reopened by a fresh Store (case r1), continued with 1-2 "
            "acknowledged writes, crashed again (after / torn) and reopened (case r2). Observable: full-range ascending read of every key ever written via Shard.CreateIterator. "
            "distinct = distinct (history, crash points, continuation); non-trivial = at least one value read back and a non-empty client history",
    "trusted_base": [
        "C01: file-system model: every write/rename/remove/truncate is durable in program order, fsync makes the written prefix durable, a crash keeps any prefix of an unsynced append; metadata re-ordering is not modelled",
        "C01: crash images are directory copies taken while the store is quiescent or stopped inside a verifPoint hook; the unsynced suffix is simulated by truncating the last appended WAL entry",
        "C01: TSM files are logical maps in the model (byte format is C13's subject); snappy/WAL entry encoding is not modelled (frames are abstract items)",
        "C01: hooks tsdb/engine/tsm1/verif_point_{on,off}.go and three added verifPoint call sites (writeSnapshotAndCommit x2, FileStore.replace)",
    ],
    "modelled": "tsm1 WAL (Open, writeToLog/sync, CloseSegment, Remove, segment reader), Cache (WriteMulti, Snapshot incl. retained snapshot, ClearSnapshot, DeleteRange), "
                "CacheLoader.Load, Engine.WritePoints/WriteSnapshot/writeSnapshotAndCommit/deleteSeriesRange/Open/cleanup/reloadCache, Compactor.WriteSnapshot/CompactFull at the "
                "logical level, FileStore.Open/replace are modelled (theories/Shard/Engine.v); block layout, TSM index bytes, tombstone file format, series file, TSI, "
                "fields.idx, size-triggered segment roll timing and concurrency between client operations are not modelled",
    "assumptions": ["one client operation at a time (concurrency is C19); background snapshot/compaction steps may interleave with a delete as in the code",
                    "compaction groups are adjacent files in (generation, sequence) order"],
}


def classify(case):
    return None
