CONFIG = {
    "manifest": {
        "text": "Theorems (Qed, closed under the global context) over every history of series creation, deletion, re-creation, measurement "
                "drops, deletion of whole shards (retention; no index rebuild follows), TSI log->file and level compactions, series-file compactions and segment roll-overs and reopen, for any number of shards and any regexp oracle: "
                "every listing of the inmem model and of the TSI (LSM) model - measurement names, tag keys, tag values, series keys, each with any "
                "=,!=,=~,!~,AND,OR predicate, exact cardinalities, series-file listing, and the series listing of a shard answered by a TSI index converted offline from the shard's files "
                "(buildtsi: DisableFsync log buffer of any capacity, any batch size) - equals the projection of the abstract series set; "
                "the next series id recovered from the segment files at open is the one in memory and above every id in use; the lazily sorted id list of an inmem measurement is never observable; "
                "compactions leave every listing unchanged; both index types answer identically. The models are diffed on every run against a real "
                "tsdb.Store opened once per index type on the same generated history (three-way: inmem impl, tsi1 impl, abstract set). "
                "Partial: TSI/series-file file formats, hash maps, bloom filters and HLL sketches are abstracted to entry lists "
                "(cardinality estimates are not compared); regexp matching is an oracle table recorded from Go's regexp.",
        "note": "Trusts Coq kernel, the harness and its canonicalisers, Go's regexp as oracle; TSM/WAL/cache contents are represented by the set of "
                "(shard, series) pairs that have points (deletes always cover all points of a shard); the 8-way hash partitioning of a TSI index "
                "and of the series file is modelled as one partition.",
        "technique": "Coq proof (refinement of an abstract series set by two executable index models, invariants by induction over histories) "
                     "+ differential correspondence of both models against real tsdb.Store instances",
    },
    "harness": "h_c14",
    "level": "proof",
    "n": {"quick": 80, "thorough": 3000},
    "shrink": True,
    "shard": 250,
    "extra_proof_files": ["ProofsBase", "ProofsQuery", "ProofsClean", "ProofsSfile", "ProofsLsmA", "ProofsLsmB", "ProofsLsmC", "ProofsLsmD", "ProofsLsmE",
                          "ProofsLsmF", "ProofsLsmG", "ProofsLsmH", "ProofsConv", "ProofsTs", "ProofsTsAns", "ProofsInmem", "ProofsInmem2", "ProofsInmemW", "ProofsInmem3", "ProofsInmemAns", "ProofsSorted"],
    "harness_timeout": {"quick": 900, "thorough": 7200},
    "rule": "corpus (minimal witnesses of the four repaired defects and of the mutation classes) and designed histories first (33: the witnesses of the four repaired defects, multi-level / re-creation / restart scenarios, "
            "tombstone+re-insert of one series id in one log file while another shard keeps the id alive followed by log swap, a tombstone merged upwards while its target sits in an older higher-level file followed by reopen, "
            "series-file segment roll-over (hook VerifRollSegment) followed by tombstones/reopen/new series, shard deletion followed by as many new series as were dropped, offline buildtsi conversion; each with a "
            "battery of ~30 queries after every phase), then seeded histories (30% start with a per-measurement churn: 2-4 rounds of write-some / DELETE of one single older series / write-new / DELETE of another older series, no reopen, listings after every step; "
            "10% drop+re-add of a series in one active log file with another shard holding it; 8% multi-level compaction with a late tombstone and reopen; 9% segment roll-over + reopen + new series; 10% shard deletion with count-matched re-creation): 1-3 shards, tsi partitions 1/2/8, MaxIndexLogFileSize 1/200/1MB, "
            "series-file compact threshold 0/1/2/4, tag value cache on/off; 4-25 steps of write (1-4 series, 35% re-creations), DELETE with/without "
            "FROM and predicate over all/prefix/suffix/one shard, DROP MEASUREMENT, Store.DeleteShard (+CreateShard), forced TSI log+level compaction (all levels cascade), series-file compaction, segment roll-over, cache "
            "snapshot, close/reopen; 0-2 queries after each step, 30% end with 1-2 conversion queries (files copied, buildtsi.IndexShard with batch 1/2/3/1000 and MaxLogFileSize 1MB/1, result opened and listed). One case = (history prefix, one query, answers of both real stores); "
            "distinct = distinct (configuration, prefix, query); non-trivial = at least one write and (non-empty answer or a delete happened)",
    "trusted_base": [
        "C14: TSI index file / log file / series file byte formats, hash indexes, bloom filters and HLL sketches are NOT modelled (entry lists); cardinality estimates are not compared, only the exact bitmap path",
        "C14: regexp matching is an oracle: the harness evaluates Go's regexp on every (pattern, subject) pair and passes the table into the case; the theorems hold for every oracle",
        "C14: the engine's data (TSM files, cache, WAL) is represented by the set of (shard, series) pairs with points; every delete of the histories covers all points of the shards it names (partial-range deletes are C10's subject)",
        "C14: the hash partitioning of a TSI index (8 partitions) and of the series file (8 partitions) is modelled as a single partition; the harness runs the real code with 1, 2 and 8 partitions",
        "C14: background compactions are allowed to finish before each step and each observation (the theorems say listings do not depend on the compaction schedule; the harness forces the real ones through exported API)",
        "C14: a series-file segment roll-over is forced through the add-only hook tsdb.VerifRollSegment (calls the unexported createSegment as writeLogEntry does when an entry does not fit); byte sizes of segments and of the tsi1 log buffer are abstracted (a roll-over / a flush may happen after any entry; the theorems quantify over all placements)",
        "C14: the lazily sorted id list of an inmem measurement object (sortedSeriesIDs) is modelled and proven transparent separately (mcache in Model.v, ProofsSorted.v); it has no correspondence cases of its own (the measurement type is unexported), the differential run sees it through the listings after shard deletions",
        "C14: a deleted shard is created again empty by the harness (the model keeps shards 1..n); the conversion query copies the live store's files (series file, TSM, tombstones, WAL) while the store is open",
    ],
    "modelled": "tsdb/series_file.go + series_partition.go + series_index.go (id<->key map, tombstones, log, segment files with their max ids, createSegment, compaction, index recovery and next-id recovery in openSegments); tsdb/index/inmem "
                "(Index/ShardIndex create, drop, dirty+Rebuild, DropSeriesGlobal with and without a following Rebuild, LoadMetadataIndex re-add, measurement.sortedSeriesIDs/SeriesIDs/AddSeries/DropSeries); tsdb/index/tsi1 (log entries and their "
                "execution, replay at open, LogFile.CompactTo, IndexFiles.CompactTo incl. buildSeriesIDSets, FileSet merge iterators, "
                "Partition series-id-set filter, DropMeasurement); tsdb/index.go IndexSet query layer and tsdb/store.go MeasurementNames/TagKeys/"
                "TagValues/SeriesCardinality/DeleteSeries/DeleteMeasurement/DeleteShard; tsdb/engine/tsm1 deleteSeriesRange index part; cmd/influx_inspect/buildtsi IndexShard with the DisableFsync log buffer and LogFile.Close flush. Not modelled: "
                "authorizers, field predicates, _name/_tagKey regex forms, sketches, TagSets/iterators of SELECT, concurrency",
    "assumptions": ["series are well-formed (distinct tag keys, non-empty tag values): models.Tags invariant",
                    "tag keys of predicates are not field names and not system names (_name, _tagKey, time)",
                    "steps are sequential: no write races with a delete of the same series"],
}


def classify(case):
    return None
