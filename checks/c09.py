CONFIG = {
    "manifest": {
        "text": "Theorems (Qed, closed under the global context) over every file set, cache content, group, block size, per-file block limit and crash point: "
                "writing a cache snapshot and compacting any group that is listed in file order, holds every file of its newest generation and jumps over no file "
                "sharing a (key,time) with an older member (in particular every contiguous group) changes no read for any key/window/direction; every output file has "
                "time-sorted, non-overlapping, non-empty blocks of <= size points within the writer's block-count limit; a crash after any number of rename/remove "
                "steps of FileStore.replace, or an aborted/failed compaction, leaves reads unchanged and every input present or fully superseded; a witness shows the "
                "jump hypothesis is needed. Block level (tsmBatchKeyIterator.merge/combine<T>/chunk<T>, sortBlocks, read marks, fast path): an executable model mirrors the code "
                "branch by branch; proved for every block list: sortBlocks never changes the newest-wins view (overlapping blocks keep file order, any length), the fast-path "
                "condition implies pairwise disjoint strictly ordered blocks without tombstones or partial reads, the array merge is the logical overlay; the refinement "
                "(output blocks concatenated = logical newest-wins merge minus tombstones; blocks non-empty, sorted, non-overlapping, <= size unless passed through; a "
                "passed-through block is an unchanged input block and every output block is exactly the logical content of its time range) is proved for every well-formed "
                "input, size >= 1 and mode whose sorted blocks are ordered by minTime, and for ALL inputs under the window condition (block_merge_refines_logical_partial: "
                "the condition itself is not proved for layouts where a newer file's block starts before an overlapping older block). DefaultPlanner.PlanLevel is modelled and "
                "every group it returns is proved to satisfy the hypotheses of the compaction theorem (contiguous whole generations in file order, no file in use, 59a68bc rule), "
                "hence to preserve reads. The models are diffed against the real Compactor/FileStore/Cache/tsmBatchKeyIterator/DefaultPlanner on generated file sets, "
                "block layouts and file-name sets; output blocks are compared block by block.",
        "note": "Trusts Coq kernel, genconsts translator, the harness and its canonicalisers. Block boundaries of the real iterator are modelled (Blocks.v) and compared block by block; "
                "the block-level refinement theorem is unconditional only for min-ordered layouts, the rest rests on correspondence. Plan/PlanOptimize (size rules) are monitored, not modelled; "
                "TSM byte layout, 2GB file roll-over, throttling, concurrency of WriteSnapshot are outside the model.",
        "technique": "Coq proof (winner characterisation of the file overlay, invariants over directory step sequences) on a Gallina model + differential correspondence "
                     "against the real tsm1 Compactor/FileStore/Cache/DefaultPlanner",
    },
    "harness": "h_c09",
    "level": "proof",
    "n": {"quick": 200, "thorough": 6000},
    "shard": 24,
    "extra_proof_files": ["ProofsA", "ProofsB", "ProofsC", "ProofsD", "BlocksProofs", "BlocksRefine", "BlocksClass", "PlannerProofs"],
    "harness_timeout": {"quick": 600, "thorough": 6000},
    "rule": "designed cases first (the non-contiguous witness, contiguous groups of the same files in both modes, blocks of exactly 1000 points with a tombstone cutting a "
            "full block, 42 small overlapping blocks of one key, a key of maximal length with all five value types, a crash at every step, every failure kind, a snapshot "
            "with duplicates and writes during the flush, the planner while a level-1 compaction is running, a whole-series FileStore.Delete issued from the compactor's "
            "file-name callback right after the block iterators were created (key held by the group / by no member, both modes), a roll-over at the writer's limit where the "
            "last key has exactly 65535 one-point blocks, block layouts of one key in both modes (disjoint full blocks, a newer file starting before an older overlapping block, partial reads of "
            "a long sparse block, a tombstone on the first / a later block / the second file only, the same timestamps in three files, 42 single-point blocks over 3 files, an oversized input block, "
            "a block fully covered by a tombstone, 1000-point blocks partially overlapped), 132 PlanLevel situations (59a68bc with plans kept acquired, orphan look-ahead, chunk boundaries 7/8/9/15/16/17 "
            "and 3/4/5, multi-file generations, tombstones); thorough tier adds 65534/65536 blocks, Size=1 full mode and roll-overs landing on a key boundary), then seeded generation: file sets of 1-6 generations x 1-3 "
            "sequences written with the real TSMWriter (keys in only some files, overlapping blocks, blocks of exactly Size, tombstones through the real "
            "TSMReader.DeleteRange/Delete, 5 value types, times at both ends of the range), Size in {2,3,1000}, CompactFull/CompactFast on contiguous whole-generation "
            "groups (12% groups that jump over generations), crashes injected through the FileStore observer at a random step, failures (compactor closed, compactions "
            "disabled, corrupt block type, file missing from the plan), WriteSnapshot with a real Cache, and DefaultPlanner op sequences (PlanLevel/Plan/ForceFull/"
            "PlanOptimize with groups kept acquired, files installed and kept groups compacted in between); 30% of the generated inputs are block layouts of ONE key over 2-6 "
            "files (random overlap, sequential files with intruders, >20 small blocks, newer files holding older times, blocks of exactly Size and of up to 2*Size points, Size in {1..5,1000}, "
            "tombstones cutting one block / a prefix / a suffix / everything / nothing, times at both ends of int64, all five types) compacted by CompactFull/CompactFast with the output blocks "
            "(index entries + decoded values) compared block by block with Blocks.merge_key, 40% of the multi-key compaction sets are also checked at block level, 8% are PlanLevel op "
            "sequences on generated file-name sets (3-30 generations, plans kept acquired, files added/removed) compared group by group with Planner.plan_level; distinct = distinct input description; non-trivial = the "
            "file set holds points and the group is non-empty (compact/crash/fail), the snapshot holds points (snap), a group was planned (plan)",
    "trusted_base": [
        "C09: reads are observed through the real FileStore.KeyCursor + ReadXBlock loop (ascending from lo, descending from hi), cache values through Cache.Values; the overlay of cache values over file values is computed in Coq (merge_lw), the engine's cursor code that does it is C02's subject",
        "C09: block level: the model's input per file and key is what the real TSMReader reports after opening the file (TombstoneRange(key), key still indexed or not) next to the block layout the harness wrote; Coq checks that this view removes exactly what the written tombstones remove (reader_tombs_okb); indirectIndex.DeleteRange's range coalescing is not modelled",
        "C09: block level: the unconditional refinement theorem covers min-ordered layouts; for the other layouts the theorem holds under the window condition (key_crux), which is NOT proved for them: there the check rests on the block-by-block comparison with the real iterator plus the executable spec (values = logical merge, blocks sorted/disjoint, <= size unless an unchanged input block)",
        "C09: block level: error paths of the iterator (decode/encode/BlockCount errors), the re-use of block structs between keys and the maxTime fix-up for index entries that disagree with the block are not in the model (the model always initialises the read marks and assumes index entry = first/last timestamp, which TSMWriter guarantees); they are exercised by the fail cases and the multi-key block cases by correspondence only",
        "C09: planner: PlanLevel is modelled (Planner.v) and compared group by group on a fake file store (names, tombstone flags, files held by unreleased plans computed by the harness); Plan and PlanOptimize (size/idle rules, the size-skip in PlanOptimize that does not close a group) are monitored, not modelled: every group the real DefaultPlanner returns is checked in Coq against the hypothesis of compact_preserves_reads (spec_plan) and compacted by the real Compactor with reads compared (CPlanned cases)",
        "C09: crash = error injected through tsdb.FileStoreObserver before the n-th rename/remove of a .tsm file, then the FileStore is closed and a new one opened on the directory; the order rename-before-remove and tsm-before-tombstone is re-read from the source by genconsts",
        "C09: roll-over cases (tens of thousands of blocks) are too large for the quadratic layer-A merge: they are judged by the executable spec on the implementation's observation (reads before = after, outputs within the block-count limit, fresh names) and the model of write/writeNewFiles (split_files) is compared on the implementation's own block stream; only ascending reads are taken (the cursor is quadratic in the number of blocks); the 2GB size limit is not exercised",
        "C09: a delete during a running compaction is injected only at the first file-name callback (before the first block is read); later interleavings need >1MB blocks (RateLimit callbacks fire per 1MB write buffer) and are not generated; what the deleted key itself reads afterwards is C10's subject",
        "C09: reader errors are injected by overwriting the type byte of one block (decoders reject it); block checksums are never validated by the reader, so a flipped payload byte is garbage-in and is not part of the check",
    ],
    "modelled": "Compactor.compact (output generation/sequence, per-key merge newest-wins with tombstones), writeNewFiles/write (roll-over at maxIndexEntries), cacheKeyIterator (dedup, chunking), "
                "FileStore.replace as rename/remove steps, FileStore.Open (glob *.tsm), removeTmpFiles are modelled (theories/C09/Model.v); the block-level iterator "
                "(tsmBatchKeyIterator.Next for one key, sortBlocks/blocks.Less, merge<T> dedup decision, combine<T> windows with read marks and the pass-through fast path, chunk<T>) is modelled in "
                "theories/C09/Blocks.v and DefaultPlanner.PlanLevel (findGenerations, inUse, level grouping, chunking, acquire) in theories/C09/Planner.v; Plan/PlanOptimize size rules, the legacy "
                "tsmKeyIterator, iterator error paths, TSM index/byte layout, indirectIndex tombstone coalescing, file-size roll-over, throttling and the scheduler are not modelled",
    "assumptions": ["file names are %09d-%09d.tsm with generation < 10^9, so that path order = (generation, sequence) order",
                    "all blocks of an input file are time-sorted and non-overlapping per key (what the writer produces)",
                    "block level: every block is non-empty with strictly increasing int64 timestamps and its index entry is (first, last) timestamp (input_wfb, times_i64)",
                    "block-level refinement theorem without the window-condition premise: sorted block list ordered by minTime (min_ordered)"],
}


def classify(case):
    return None
