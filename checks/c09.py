CONFIG = {
    "manifest": {
        "text": "Theorems (Qed, closed under the global context) over every file set, cache content, group, block size, per-file block limit and crash point: "
                "writing a cache snapshot and compacting any group that is listed in file order, holds every file of its newest generation and jumps over no file "
                "sharing a (key,time) with an older member (in particular every contiguous group) changes no read for any key/window/direction; every output file has "
                "time-sorted, non-overlapping, non-empty blocks of <= size points within the writer's block-count limit; a crash after any number of rename/remove "
                "steps of FileStore.replace, or an aborted/failed compaction, leaves reads unchanged and every input present or fully superseded; a witness shows the "
                "jump hypothesis is needed. The model is diffed against the real Compactor/FileStore/Cache on generated file sets, and the real DefaultPlanner's "
                "groups are checked against the hypothesis (runtime monitor) and compacted for real.",
        "note": "Trusts Coq kernel, genconsts translator, the harness and its canonicalisers. Block boundaries of the real iterator (fast path, partial reads) are "
                "observed and checked against the executable spec, not modelled; TSM byte layout, 2GB file roll-over, throttling, concurrency of WriteSnapshot are outside the model.",
        "technique": "Coq proof (winner characterisation of the file overlay, invariants over directory step sequences) on a Gallina model + differential correspondence "
                     "against the real tsm1 Compactor/FileStore/Cache/DefaultPlanner",
    },
    "harness": "h_c09",
    "level": "proof",
    "n": {"quick": 260, "thorough": 6000},
    "shard": 24,
    "extra_proof_files": ["ProofsA", "ProofsB", "ProofsC", "ProofsD"],
    "harness_timeout": {"quick": 600, "thorough": 6000},
    "rule": "designed cases first (the non-contiguous witness, contiguous groups of the same files in both modes, blocks of exactly 1000 points with a tombstone cutting a "
            "full block, 42 small overlapping blocks of one key, a key of maximal length with all five value types, a crash at every step, every failure kind, a snapshot "
            "with duplicates and writes during the flush, the planner while a level-1 compaction is running, a whole-series FileStore.Delete issued from the compactor's "
            "file-name callback right after the block iterators were created (key held by the group / by no member, both modes), a roll-over at the writer's limit where the "
            "last key has exactly 65535 one-point blocks; thorough tier adds 65534/65536 blocks, Size=1 full mode and roll-overs landing on a key boundary), then seeded generation: file sets of 1-6 generations x 1-3 "
            "sequences written with the real TSMWriter (keys in only some files, overlapping blocks, blocks of exactly Size, tombstones through the real "
            "TSMReader.DeleteRange/Delete, 5 value types, times at both ends of the range), Size in {2,3,1000}, CompactFull/CompactFast on contiguous whole-generation "
            "groups (12% groups that jump over generations), crashes injected through the FileStore observer at a random step, failures (compactor closed, compactions "
            "disabled, corrupt block type, file missing from the plan), WriteSnapshot with a real Cache, and DefaultPlanner op sequences (PlanLevel/Plan/ForceFull/"
            "PlanOptimize with groups kept acquired, files installed and kept groups compacted in between); distinct = distinct input description; non-trivial = the "
            "file set holds points and the group is non-empty (compact/crash/fail), the snapshot holds points (snap), a group was planned (plan)",
    "trusted_base": [
        "C09: reads are observed through the real FileStore.KeyCursor + ReadXBlock loop (ascending from lo, descending from hi), cache values through Cache.Values; the overlay of cache values over file values is computed in Coq (merge_lw), the engine's cursor code that does it is C02's subject",
        "C09: block boundaries chosen by tsmBatchKeyIterator (fast path, pass-through of full blocks) are NOT modelled; the observed index entries and decoded blocks of every output are checked against the executable spec blocks_okb/entries_okb, the logical content per key against the model",
        "C09: the planner is monitored, not modelled: every group the real DefaultPlanner returns is checked in Coq against the hypothesis of compact_preserves_reads (spec_plan) and compacted by the real Compactor with reads compared (CPlanned cases)",
        "C09: crash = error injected through tsdb.FileStoreObserver before the n-th rename/remove of a .tsm file, then the FileStore is closed and a new one opened on the directory; the order rename-before-remove and tsm-before-tombstone is re-read from the source by genconsts",
        "C09: roll-over cases (tens of thousands of blocks) are too large for the quadratic layer-A merge: they are judged by the executable spec on the implementation's observation (reads before = after, outputs within the block-count limit, fresh names) and the model of write/writeNewFiles (split_files) is compared on the implementation's own block stream; only ascending reads are taken (the cursor is quadratic in the number of blocks); the 2GB size limit is not exercised",
        "C09: a delete during a running compaction is injected only at the first file-name callback (before the first block is read); later interleavings need >1MB blocks (RateLimit callbacks fire per 1MB write buffer) and are not generated; what the deleted key itself reads afterwards is C10's subject",
        "C09: reader errors are injected by overwriting the type byte of one block (decoders reject it); block checksums are never validated by the reader, so a flipped payload byte is garbage-in and is not part of the check",
    ],
    "modelled": "Compactor.compact (output generation/sequence, per-key merge newest-wins with tombstones), writeNewFiles/write (roll-over at maxIndexEntries), cacheKeyIterator (dedup, chunking), "
                "FileStore.replace as rename/remove steps, FileStore.Open (glob *.tsm), removeTmpFiles are modelled (theories/C09/Model.v); the block-level merge algorithm "
                "(combine/merge fast path), DefaultPlanner, TSM index/byte layout, file-size roll-over, throttling and the scheduler are not modelled",
    "assumptions": ["file names are %09d-%09d.tsm with generation < 10^9, so that path order = (generation, sequence) order",
                    "all blocks of an input file are time-sorted and non-overlapping per key (what the writer produces)"],
}


def classify(case):
    return None
