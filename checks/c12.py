CONFIG = {
    "manifest": {
        "text": "Theorems (Qed, closed under the global context) on a Gallina model of models/points.go that mirrors the scanners index by index "
                "with every unguarded index/slice as a checked read: for EVERY byte string the parser (ParsePointsWithPrecision), UnmarshalBinary, "
                "NewPointFromBytes, hh.unmarshalWrite and WriteShardRequest.Points never panic, Points() has no nil entry and Fields() of a decoded point "
                "does not panic; each escape function is undone by its unescape function (tables re-read from the source); the key text of any "
                "well-formed measurement/tag set is accepted by scanKey and yields the measurement plus tags sorted by escaped key whatever order they "
                "were written in (hence the same FNV-64a HashID); a body of closed lines (every line without newline/quote is closed, however malformed) "
                "parses to the concatenation of the per-line results; SafeCalcTime scales by the documented unit exactly or errors (no wrap-around); "
                "timestamp_exact_or_rejected: for EVERY timestamp token and precision string the request 'm v=1 <ts>' yields one point at exactly "
                "text_value*unit (computed in Z) when that lies in [MinNanoTime, MaxNanoTime] and one error otherwise, and for every line an accepted "
                "point carries exactly the instant its timestamp token denotes (safeSignedMult modelled with its int64 product taken mod 2^64); "
                "hinted_writes_exactly_once: if the hinted-handoff queue holds in any order the marshalWrite blocks of the acknowledged WriteShard "
                "calls, every block decodes and the decoded batches are the acknowledged ones, each once; "
                "decimal int64 text parses back; MarshalBinary/NewPointFromBytes and the hinted-handoff framing round-trip. "
                "Every run diffs model and executable spec against the real code on designed + generated lines (all precisions, numeric forms, "
                "escapes, permuted/duplicate tags, multi-line bodies, malformed and non-UTF-8 input, truncated/mutated binary points), on boundary "
                "timestamps of every precision (accepted => exact product in Z and in range, out of range => rejected, evaluated on what the implementation did), "
                "and on real NodeProcessor.WriteShard calls from 1-8 goroutines whose queue is then drained and decoded. "
                "Partial: the text round trip of whole lines (field set scanning, field iterator) is checked on the implementation per run, "
                "proved only for the key and the timestamp.",
        "note": "Trusts Coq kernel (incl. primitive Uint63 for decoding case literals), genconsts, the harness; strconv.ParseFloat/AppendFloat enter "
                "as an oracle (values recorded from the real strconv per case); time.Time binary layout of go1.23 mirrored, zones other than UTC not modelled; "
                "slice capacity modelled only where the code relies on it (field iterator).",
        "technique": "Coq proof (induction over byte strings / index loops with fuel) on a Gallina model + differential correspondence against the real parser, printers and decoders",
    },
    "harness": "h_c12",
    "level": "proof",
    "n": {"quick": 1600, "thorough": 30000},
    "harness_timeout": {"quick": 900, "thorough": 3000},
    "shard": 350,
    "extra_proof_files": ["TimeExact", "TimeLine", "HHWProofs"],
    "search_rounds": 2,
    "search_boost": 2,
    "rule": "corpus (witnesses of the 7 repaired defects, boundaries) then designed cases (numeric/time extremes, bool forms, duplicate and unsorted tags, "
            "comments/blank lines, quoted newlines, every binary field-set shape, framing limits, each escape function on 15 fixed strings; "
            "for each precision n,u,ms,s,m,h the timestamps floor(x/unit)+{-1,0,1} and their negatives for x in 2^63-1, 2^63, MaxNanoTime, k*2^64, k*2^64+-2^63 (k=1,2), "
            "zero/negative-zero/leading-zero/sign/19-20 digit/non-decimal texts; 4 concurrent hinted-handoff write sets) then seeded generation: "
            "50% ParsePointsWithPrecision bodies of 1-5 lines (structured valid lines rendered from an abstract point with random names over an alphabet rich in "
            "',' ' ' '=' '\"' '\\\\' tab NUL and non-UTF-8 bytes, 0-5 tags in sorted or shuffled order plus a re-rendering in another order, 1-4 fields of every "
            "type and numeric form, explicit/absent timestamp at one of 8 precision strings (1 in 7 at an edge of the range or of a 2^64 wrap, possibly out of range => the line must be rejected), extra whitespace; mutated structured lines; comments/blank lines; "
            "malformed lines from mutation, a special-character alphabet or raw bytes), 20% NewPointFromBytes (valid, truncated, bit-flipped, length-prefix limits, "
            "crafted field sets and time words), 10% 'm v=1 <ts>' lines (40% boundary values as above with k up to 4e6 and offset -3..3, 10% quotients of k*2^64 whose wrapped "
            "product is a small in-range value, 10% random 19-20 digit texts, 10% special/non-decimal texts, 10% any int64, 5% damaged decimal, 15% in-range incl. leading zeros; "
            "60% of them at u/ms/s/m/h), 5% hh.unmarshalWrite, 2.5% WriteShardRequest.Points + write to a real shard, 2.5% real hh.NodeProcessor.WriteShard "
            "from 1-8 goroutines x 1-6 rounds with distinct batches (<= 240 points, string field 0-200 bytes), queue closed, reopened and drained, 7.5% the ten escape functions; "
            "distinct = distinct input bytes+precision+default time; non-trivial = at least one accepted point (parse), >= 8 bytes (bin), an acknowledged batch (hhw), non-empty input (others)",
    "trusted_base": [
        "C12: strconv.ParseFloat is an oracle: per case the harness records the float64 bits real strconv returns for every token the scanner or the field iterator can hand to it; integer and boolean parsing, decimal printing and FNV-64a are modelled exactly",
        "C12: case byte strings are written as primitive Uint63 literals (7 bytes each) and decoded inside vm_compute; the theorems do not use primitive integers",
        "C12: per-point checks 'the printed point parses back to the same point' and 'NewPointFromBytes(MarshalBinary) / hh framing give the same point' are computed by the harness on the real code and enter check_case as booleans",
        "C12: time.Time (go1.23) sec/nsec/UnixNano/IsZero/MarshalBinary/UnmarshalBinary mirrored for UTC times; Truncate assumed to be floor to a multiple of the unit since the Unix epoch",
        "C12: hinted-handoff concurrency: goroutine interleavings are whatever the Go scheduler produces in the run (a race is looked for, not excluded); the queue (segments, Append/Current/Advance) is used as is and is property C04's subject; WriteShard's splitting of batches above the 10 MiB segment size is not exercised here (batches are small, checked in Coq against hh.defaultSegmentSize)",
        "C12: constants, precision tables and escape tables are regenerated from models/points.go, time.go, inline_fnv.go, pkg/escape/bytes.go by genconsts on every run; Spec.v keeps its own copies of the published FNV constants and precision units",
    ],
    "modelled": "models/points.go scanLine, skipWhitespace, scanKey (scanMeasurement, scanTags*, insertionSort, duplicate passes, key rebuild), scanFields, scanNumber, "
                "scanBoolean, scanTime, scanTo, scanToSpaceOr, scanFieldValue, walkFields, parsePoint, ParsePointsWithPrecision, SafeCalcTime, SetPrecision, the field iterator "
                "and Fields(), String/AppendString, HashID, MarshalBinary/UnmarshalBinary/NewPointFromBytes, escape pairs, pkg/escape, hh.marshalWrite/unmarshalWrite, "
                "WriteShardRequest.unmarshalPoints, NodeProcessor.WriteShard for batches below the segment size (one marshalWrite block per call, concurrent calls in any order) are modelled (theories/C12/{Base,Escape,Scan,Point}.v); NewPoint/MakeKey/Tags()/Name()/Split/Round and the tsdb write path are not modelled",
    "assumptions": ["strconv.ParseFloat(format(b)) = b is not needed by the proved theorems; float text enters only through the oracle",
                    "64-bit int (length prefixes of binary points are non-negative after conversion)",
                    "harness process runs with TZ such that no binary point in the generated stream uses the local zone other than UTC"],
}

def classify(case):
    return None
