CONFIG = {
    "manifest": {
        "text": "Theorems (Qed, closed under the global context) on a Gallina model of models/points.go that mirrors the scanners index by index "
                "with every unguarded index/slice as a checked read: for EVERY byte string the parser (ParsePointsWithPrecision), UnmarshalBinary, "
                "NewPointFromBytes, hh.unmarshalWrite and WriteShardRequest.Points never panic, Points() has no nil entry and Fields() of a decoded point "
                "does not panic; each escape function is undone by its unescape function (tables re-read from the source); the key text of any "
                "well-formed measurement/tag set is accepted by scanKey and yields the measurement plus tags sorted by escaped key whatever order they "
                "were written in (hence the same FNV-64a HashID); a body of closed lines (every line without newline/quote is closed, however malformed) "
                "parses to the concatenation of the per-line results; SafeCalcTime scales by the documented unit exactly or errors (no wrap-around); "
                "timestamp_exact_or_rejected: for EVERY timestamp token and precision string the request 'm v=1 <ts>' yields one point at exactly "
                "text_value*unit (computed in Z) when that lies in [MinNanoTime, MaxNanoTime] and one error otherwise, and for every line an accepted "
                "point carries exactly the instant its timestamp token denotes (safeSignedMult modelled with its int64 product taken mod 2^64); "
                "hinted_writes_exactly_once: if the hinted-handoff queue holds in any order the marshalWrite blocks of the acknowledged WriteShard "
                "calls, every block decodes and the decoded batches are the acknowledged ones, each once; "
                "decimal int64 text parses back; MarshalBinary/NewPointFromBytes and the hinted-handoff framing round-trip. "
                "Every run diffs model and executable spec against the real code on designed + generated lines (all precisions, numeric forms, "
                "escapes, permuted/duplicate tags, multi-line bodies, malformed and non-UTF-8 input, truncated/mutated binary points), on boundary "
                "timestamps of every precision (accepted => exact product in Z and in range, out of range => rejected, evaluated on what the implementation did), "
                "and on real NodeProcessor.WriteShard calls from 1-8 goroutines whose queue is then drained and decoded. "
                "print_parse_roundtrip: for EVERY well-formed abstract point (measurement, tags, typed fields int64|uint64|float bits|bool|string, optional timestamp; "
                "names non-empty and not ending in a backslash, first name not starting with tab/NUL, tag keys distinct, values in range, key sizes within MaxKeyLength) "
                "and every order of its tags, the text 'key fields [timestamp]' with the fields printed as Fields.MarshalBinary/appendField print them "
                "(escape.String names, i/u suffixes, true/false, EscapeStringField strings, the AppendFloat text) is accepted by parsePoint, the point has the canonical key, "
                "the field text as written and the exact instant, and Fields() returns exactly the typed fields (names, types, values/bits, order); "
                "the same for every accepted spelling of the values (ten boolean spellings, [-]digits-with-at-most-one-dot floats such as 1. .5 -0); "
                "fields_roundtrip: scanFields, the walkFields key-size pass and the field iterator agree on the boundaries of a rendered field set after any prefix "
                "(keys with escaped , = space and quotes, doubled and trailing backslashes in strings, min/max integers, max unsigned, several fields in order); "
                "accepted_line_reprints_stable_partial: String() of the point such a line parses to parses again to exactly the same point; "
                "print_parse_roundtrip_request_partial: sent as the whole request to ParsePointsWithPrecision, a printed point without newline/quote/backslash that does not start with '#' yields exactly that one point (lines with quoted strings or escapes: only at the parsePoint level); "
                "NOT proved: that statement for every byte string the parser accepts (redundant backslashes, adjacent quoted pieces, exponent floats, leading zeros: "
                "those are checked per run on the real code by reparse_ok). The float text<->bits conversion is an oracle: the shape of the printed float text and "
                "ParseFloat(text)=bits are hypotheses of wf_point. "
                "Every run additionally BUILDS points from typed values with models.NewPoint (Fields.MarshalBinary/appendField), prints them with String(), compares the text with the model printer "
                "(Print.v) and demands that the parsed text has the same field names, types and values/bits (case kind fprint).",
        "note": "Trusts Coq kernel (incl. primitive Uint63 for decoding case literals), genconsts, the harness; strconv.ParseFloat/AppendFloat enter "
                "as an oracle (values recorded from the real strconv per case); time.Time binary layout of go1.23 mirrored, zones other than UTC not modelled; "
                "slice capacity modelled only where the code relies on it (field iterator).",
        "technique": "Coq proof (induction over byte strings / index loops with fuel) on a Gallina model + differential correspondence against the real parser, printers and decoders",
    },
    "harness": "h_c12",
    "level": "proof",
    "n": {"quick": 1600, "thorough": 30000},
    "harness_timeout": {"quick": 900, "thorough": 3000},
    "shard": 350,
    "extra_proof_files": ["TimeExact", "TimeLine", "HHWProofs", "FieldNum", "FieldScan", "FieldIter", "FieldAsm", "LineRound", "Reprint", "PlainReq"],
    "search_rounds": 2,
    "search_boost": 2,
    "rule": "corpus (witnesses of the 7 repaired defects, boundaries) then designed cases (numeric/time extremes, bool forms, duplicate and unsorted tags, "
            "comments/blank lines, quoted newlines, every binary field-set shape, framing limits, each escape function on 15 fixed strings; "
            "numeric forms and near misses 1i2 +1 1. .1 1e5 -0 -0i 007i 1u -1u 1.5i 1..2, all ten boolean spellings, escaped field keys, adjacent quoted pieces; 12 designed fprint points: every field type, Min/MaxInt64, MaxUint64, -0, 1e21, strings with quotes/backslashes/trailing backslash/newline, keys made of , = space quote backslash and non-UTF-8 bytes; "
            "for each precision n,u,ms,s,m,h the timestamps floor(x/unit)+{-1,0,1} and their negatives for x in 2^63-1, 2^63, MaxNanoTime, k*2^64, k*2^64+-2^63 (k=1,2), "
            "zero/negative-zero/leading-zero/sign/19-20 digit/non-decimal texts; 4 concurrent hinted-handoff write sets) then seeded generation: "
            "50% ParsePointsWithPrecision bodies of 1-5 lines (structured valid lines rendered from an abstract point with random names over an alphabet rich in "
            "',' ' ' '=' '\"' '\\\\' tab NUL and non-UTF-8 bytes, 0-5 tags in sorted or shuffled order plus a re-rendering in another order, 1-4 fields of every "
            "type and numeric form, explicit/absent timestamp at one of 8 precision strings (1 in 7 at an edge of the range or of a 2^64 wrap, possibly out of range => the line must be rejected), extra whitespace; mutated structured lines; comments/blank lines; "
            "malformed lines from mutation, a special-character alphabet or raw bytes), 20% NewPointFromBytes (valid, truncated, bit-flipped, length-prefix limits, "
            "crafted field sets and time words), 10% 'm v=1 <ts>' lines (40% boundary values as above with k up to 4e6 and offset -3..3, 10% quotients of k*2^64 whose wrapped "
            "product is a small in-range value, 10% random 19-20 digit texts, 10% special/non-decimal texts, 10% any int64, 5% damaged decimal, 15% in-range incl. leading zeros; "
            "60% of them at u/ms/s/m/h), 5% hh.unmarshalWrite, 2.5% WriteShardRequest.Points + write to a real shard, 2.5% real hh.NodeProcessor.WriteShard "
            "from 1-8 goroutines x 1-6 rounds with distinct batches (<= 240 points, string field 0-200 bytes), queue closed, reopened and drained, 5% the ten escape functions, "
            "5% fprint: models.NewPoint(\"m\", nil, Fields) with 1-4 distinct field names over the special alphabet and values of every type (special and random int64/uint64, finite floats within 1e-40..1e40 incl. -0 and integers beyond 2^53, booleans, strings over an alphabet of quote, backslash, comma, =, space, newline, NUL, non-UTF-8), String(), parse at precision n; "
            "distinct = distinct input bytes+precision+default time; non-trivial = at least one accepted point (parse), >= 8 bytes (bin), an acknowledged batch (hhw), a point was built (fprint), non-empty input (others)",
    "trusted_base": [
        "C12: strconv.AppendFloat(v,'f',-1,64) is an oracle for the model printer: per fprint case the harness records the text real strconv gives for each float field; the theorem print_parse_roundtrip assumes that text has the shape [-]digits[.digits] and that ParseFloat reads it back as the same bits",
        "C12: fprint cases pass the fields to the model in sort.Strings order of their names (computed by the harness, checked to be strictly increasing by check_case); duplicate names cannot occur in a Go map",
        "C12: strconv.ParseFloat is an oracle: per case the harness records the float64 bits real strconv returns for every token the scanner or the field iterator can hand to it; integer and boolean parsing, decimal printing and FNV-64a are modelled exactly",
        "C12: case byte strings are written as primitive Uint63 literals (7 bytes each) and decoded inside vm_compute; the theorems do not use primitive integers",
        "C12: for accepted lines that are not a rendering of a well-formed point the per-point checks 'the printed point parses back to the same point' and 'NewPointFromBytes(MarshalBinary) / hh framing give the same point' are computed by the harness on the real code and enter check_case as booleans",
        "C12: time.Time (go1.23) sec/nsec/UnixNano/IsZero/MarshalBinary/UnmarshalBinary mirrored for UTC times; Truncate assumed to be floor to a multiple of the unit since the Unix epoch",
        "C12: hinted-handoff concurrency: goroutine interleavings are whatever the Go scheduler produces in the run (a race is looked for, not excluded); the queue (segments, Append/Current/Advance) is used as is and is property C04's subject; WriteShard's splitting of batches above the 10 MiB segment size is not exercised here (batches are small, checked in Coq against hh.defaultSegmentSize)",
        "C12: constants, precision tables and escape tables are regenerated from models/points.go, time.go, inline_fnv.go, pkg/escape/bytes.go by genconsts on every run; Spec.v keeps its own copies of the published FNV constants and precision units",
    ],
    "modelled": "models/points.go scanLine, skipWhitespace, scanKey (scanMeasurement, scanTags*, insertionSort, duplicate passes, key rebuild), scanFields, scanNumber, "
                "scanBoolean, scanTime, scanTo, scanToSpaceOr, scanFieldValue, walkFields, parsePoint, ParsePointsWithPrecision, SafeCalcTime, SetPrecision, the field iterator "
                "and Fields(), String/AppendString, Fields.MarshalBinary/appendField for int64/uint64/float64/bool/string values (Print.v), HashID, MarshalBinary/UnmarshalBinary/NewPointFromBytes, escape pairs, pkg/escape, hh.marshalWrite/unmarshalWrite, "
                "WriteShardRequest.unmarshalPoints, NodeProcessor.WriteShard for batches below the segment size (one marshalWrite block per call, concurrent calls in any order) are modelled (theories/C12/{Base,Escape,Scan,Point}.v); NewPoint's validation, MakeKey (NewPoint is only exercised without tags), appendField for the other Go number types, Tags()/Name()/Split/Round and the tsdb write path are not modelled",
    "assumptions": ["print_parse_roundtrip assumes, per float field, that strconv.AppendFloat(b,'f',-1,64) is [-]digits[.digits] and strconv.ParseFloat of it returns b (true of finite float64; not proved, float text enters only through the oracle pair)",
                    "accepted spellings covered by the theorem: canonical decimal integers, [-]digits-with-one-optional-dot floats, the ten boolean spellings, strings escaped by EscapeStringField; exponent forms and redundant escapes are differential only",
                    "64-bit int (length prefixes of binary points are non-negative after conversion)",
                    "harness process runs with TZ such that no binary point in the generated stream uses the local zone other than UTC"],
}

def classify(case):
    return None
